#!/usr/bin/env python3
"""py2gallina_c13 - a small FAIL-CLOSED translator from the Python source of liesel's two Gibbs kernels
    liesel/model/distreg.py : tau2_gibbs_kernel            (its nested `transition`)
    liesel/model/goose.py   : finite_discrete_gibbs_kernel (its nested `transition_fn` and the closure
                                                            `conditional_log_prob_fn` inside it)
to Gallina, used by the C13 check (harness/lv/c13.py -> c13_tie.py) on every run to re-establish the C13
theorems for the code as it reads now.  The source is parsed with `ast`; nothing is imported or executed.

Reading of numbers (tau2 kernel): every number is a real number (Coq `R`); float literals are the decimal
fractions written (`0.5` is 1/2); arrays are lists (vectors `list R`, matrices `list (list R)` by rows).
This is the reading of the hand-written model coq/Analytic/Gibbs.v; rounding is covered by the behavioural
correspondence (tolerances), not by this tie.
Reading of the model object (discrete kernel): the kernel's private `Model` is a state of the cached-graph
machine of coq/Graph/Graph.v (`mstate V`), threaded explicitly through the translated statements; an
operation that can raise yields an `option` (None = raises), sequenced with `py_bind`
(coq/Analytic/GenC13Tie.v).

LIBRARY-CALL TABLE (the complete list; `jnp` stands for any module-level alias of jax.numpy / numpy, `jax` for
the module alias of jax; everything else raises `Unsupported` with file:line - nothing is guessed)
  tau2_gibbs_kernel.transition
    group.value_from(model_state, "<k>")  -> the parameter s_<k> of the generated function, for the group keys
                                             a, b, rank, tau2 (R), beta (list R), K (list (list R));
                                             assumed: Group.value_from returns the value of that member in the
                                             state handed to the kernel (seeded change C13-6 breaks exactly
                                             this assumption and is found by the behavioural part only)
    jax.random.gamma(prng_key, c)         -> gamma k_<prng_key> c     (oracle parameter gamma : Key -> R -> R;
                                             assumed: a Gamma(c, 1) variate - a hypothesis of the theorems)
    jnp.squeeze(x), jnp.asarray(x)        -> x        (scalars only; identity on a real number)
    x @ y, jnp.dot(x, y), jnp.matmul(x, y)-> dot x y (vector, vector) | matvec x y (matrix, vector)
                                             | vecmat x y (vector, matrix); matrix @ matrix is refused
    + - * / and unary -                   -> the operations of R (scalars only)
    jnp.maximum / minimum / abs / exp / log / sqrt -> Rmax / Rmin / Rabs / exp / ln / sqrt (scalars)
    return {position_key: e}              -> e        (position_key = group["tau2"].name is checked)
  finite_discrete_gibbs_kernel.transition_fn
    model.state = model_state             -> model_set_state m_ v_<model_state>          (= Graph.restore)
    for n in model.nodes.values(): n._outdated = False
                                          -> model_clear_outdated m_                     (= clear_flags)
    model.vars[name].value = value        -> model_set_value v m_ value   (machine step Assign v value;
                                             v = position of the variable's value node; None = raises)
    model.update("<n1>", ...)             -> model_update [<positions>] m_ (machine step Update [..]; [] = full)
                                             node names: _model_log_prob -> lp, _model_log_lik -> ll,
                                             _model_log_prior -> lpr
    model.log_prob / .log_lik / .log_prior-> model_node_value lp|ll|lpr m_  (value of that node; assumed: the
                                             Model properties read the nodes of these names, model.py)
    jax.vmap(f)(outcomes)                 -> vmap (gen_f ... m_) outcomes   (all-or-nothing map from the SAME
                                             model state, DESIGN 4.4; the model object is unusable afterwards)
    jax.random.categorical(prng_key, logits=l) -> categorical k_<prng_key> l  (oracle : Key -> list V -> nat;
                                             assumed: index i with probability exp l_i / sum_j exp l_j)
    outcomes[i]                           -> nth_error outcomes i          (None = out of range)
    return {name: d}                      -> Some d
  The outcome-extraction prelude of finite_discrete_gibbs_kernel (`if outcomes is not None ... match dist`)
  is NOT translated: `outcomes` is a parameter of the generated function.  The statements
  `model = model._copy_computational_model()` and `model.auto_update = False` must be present (they are the
  source of the theorems' hypothesis `auto km = false`); they are checked, not translated.

SUPPORTED SUBSET
  module      docstring, imports, `def`s, classes, assignments to plain names that are not used by the
              translation; each translated function defined exactly once, undecorated
  tau2        outer body exactly: docstring, `position_key = group["tau2"].name`, `def transition(key, state)`,
              `return GibbsKernel([position_key], transition)`; inner statements: docstring, `pass`, `x = e`,
              `x: T = e`, `x op= e` (+ - * /), final `return {position_key: e}`
  discrete    outer body: the untranslated prelude (may only bind `outcomes` and fresh locals), then exactly the
              two statements above, `def transition_fn(key, state)`, `return GibbsKernel([name], transition_fn)`;
              transition_fn: the statement forms of the table, one nested `def f(value)` whose body is a docstring,
              assignments of the variable, `model.update(...)` calls and a final `return model.<property>`
  Refused among others: loops other than the flag-clearing loop, `if`, `try`, `with`, `lambda`, comprehensions,
  walrus, starred / keyword arguments (except `logits=`), attribute access outside the table, re-binding of a
  parameter, the group, the model or a module alias.

Command line:  py2gallina_c13.py <repo-root>      prints the generated definitions.
"""
from __future__ import annotations

import ast
import hashlib
import os
import sys
from fractions import Fraction

DISTREG_PY = "liesel/model/distreg.py"
GOOSE_PY = "liesel/model/goose.py"

NUMERIC_MODULES = {"jax.numpy", "numpy"}
GROUP_KEYS = [("a", "R"), ("b", "R"), ("rank", "R"), ("tau2", "R"), ("beta", "vec"), ("K", "mat")]
KEY_TYPE = dict(GROUP_KEYS)
COQ_TYPE = {"R": "R", "vec": "list R", "mat": "list (list R)"}
UNARY_CALLS = {"exp": "exp", "log": "ln", "sqrt": "sqrt", "abs": "Rabs", "absolute": "Rabs"}
BINARY_CALLS = {"maximum": "Rmax", "minimum": "Rmin"}
IDENT_CALLS = {"squeeze", "asarray"}
MATMUL_CALLS = {"dot", "matmul"}
ARITH = {ast.Add: "+", ast.Sub: "-", ast.Mult: "*", ast.Div: "/"}
NODE_NAMES = {"_model_log_prob": "lp", "_model_log_lik": "ll", "_model_log_prior": "lpr"}
MODEL_PROPS = {"log_prob": "lp", "log_lik": "ll", "log_prior": "lpr"}

FORBIDDEN = (ast.AsyncFunctionDef, ast.Lambda, ast.ClassDef, ast.Global, ast.Nonlocal, ast.Try, ast.With,
             ast.While, ast.Delete, ast.Import, ast.ImportFrom, ast.Yield, ast.YieldFrom, ast.Await, ast.NamedExpr,
             ast.Raise, ast.Assert, ast.If, ast.IfExp, ast.ListComp, ast.SetComp, ast.DictComp, ast.GeneratorExp,
             ast.Match, ast.Starred, ast.AsyncFor, ast.AsyncWith)


class Unsupported(Exception):
    pass


def rlit(fr: Fraction) -> str:
    n, d = fr.numerator, fr.denominator
    if d == 1:
        return f"({n})" if n < 0 else str(n)
    return f"({n} / {d})"


def is_doc(s):
    return isinstance(s, ast.Expr) and isinstance(s.value, ast.Constant) and isinstance(s.value.value, str)


class Module:
    def __init__(self, root, rel):
        self.rel = rel
        self.path = os.path.join(root, rel)
        try:
            self.src = open(self.path, encoding="utf8").read()
        except OSError as ex:
            raise Unsupported(f"{rel}: cannot read: {ex}")
        try:
            self.tree = ast.parse(self.src, filename=self.path)
        except SyntaxError as ex:
            raise Unsupported(f"{rel}:{ex.lineno}: syntax error")
        self.aliases = {}       # local module name -> dotted module it stands for
        self.from_names = {}    # imported name -> (module, original name)
        self.defs = {}
        for n in self.tree.body:
            if isinstance(n, ast.Import):
                for a in n.names:
                    if a.asname:
                        self.aliases[a.asname] = a.name
                    else:
                        self.aliases[a.name.split(".")[0]] = a.name.split(".")[0]
            elif isinstance(n, ast.ImportFrom):
                for a in n.names:
                    mod = (n.module or "") if not n.level else "." * n.level + (n.module or "")
                    self.from_names[a.asname or a.name] = (mod, a.name)

    def fail(self, node, what):
        raise Unsupported(f"{self.rel}:{getattr(node, 'lineno', '?')}: unsupported: {what}")

    def seg(self, node):
        return ast.get_source_segment(self.src, node) or ""

    def info(self, outer, inner, label):
        return {"file": self.rel, "function": label, "lines": [outer.lineno, outer.end_lineno],
                "translated_lines": [inner.lineno, inner.end_lineno],
                "sha256": hashlib.sha256(self.seg(outer).encode()).hexdigest()}

    def check_module(self, wanted, protected):
        """nothing at module level may change the meaning of the translated text"""
        found = []
        for n in self.tree.body:
            if is_doc(n) or isinstance(n, (ast.Import, ast.ImportFrom)):
                continue
            if isinstance(n, (ast.FunctionDef, ast.ClassDef, ast.AsyncFunctionDef)):
                if n.name == wanted:
                    found.append(n)
                elif n.name in protected:
                    self.fail(n, f"{n.name} is re-defined at module level")
                continue
            if isinstance(n, (ast.Assign, ast.AnnAssign)):
                tgts = n.targets if isinstance(n, ast.Assign) else [n.target]
                for t in tgts:
                    if not isinstance(t, ast.Name):
                        self.fail(n, "module-level assignment to " + ast.unparse(t)[:40])
                    if t.id in protected or t.id == wanted:
                        self.fail(n, f"{t.id} is assigned at module level")
                continue
            self.fail(n, "module-level statement " + type(n).__name__)
        if len(found) != 1 or not isinstance(found[0], ast.FunctionDef):
            raise Unsupported(f"{self.rel}: function {wanted} is not defined exactly once at module level")
        if wanted in self.aliases or wanted in self.from_names:
            raise Unsupported(f"{self.rel}: {wanted} is both imported and defined")
        f = found[0]
        if f.decorator_list:
            self.fail(f, "decorated function: " + ast.unparse(f.decorator_list[0])[:40])
        return f

    def dotted(self, node, bound):
        """fully qualified name of a module attribute chain (jnp.squeeze -> jax.numpy.squeeze), or None"""
        parts = []
        while isinstance(node, ast.Attribute):
            parts.append(node.attr)
            node = node.value
        if not isinstance(node, ast.Name) or node.id in bound or node.id not in self.aliases:
            return None
        return ".".join([self.aliases[node.id]] + parts[::-1])

    def gibbs_kernel_imported(self):
        mod, orig = self.from_names.get("GibbsKernel", ("", ""))
        if orig != "GibbsKernel" or "goose" not in mod:
            raise Unsupported(f"{self.rel}: GibbsKernel is not imported from liesel.goose")


def plain_params(m, fn, n, what):
    a = fn.args
    if a.vararg or a.kwarg or a.kwonlyargs or a.posonlyargs or a.kw_defaults or a.defaults:
        m.fail(fn, f"parameter list of {what} with * / ** / keyword-only / positional-only / default parameters")
    if fn.decorator_list:
        m.fail(fn, f"decorated {what}")
    if len(a.args) != n:
        m.fail(fn, f"{what} takes {len(a.args)} parameters, the translation knows it with {n}")
    return [x.arg for x in a.args]


def forbid(m, fn, allow=()):
    for sub in ast.walk(fn):
        if sub is fn:
            continue
        if isinstance(sub, FORBIDDEN) and not isinstance(sub, allow):
            m.fail(sub, type(sub).__name__ + " inside " + fn.name)


def stored_names(node):
    return {x.id for x in ast.walk(node) if isinstance(x, ast.Name) and isinstance(x.ctx, (ast.Store, ast.Del))}


def check_return_kernel(m, ret, key_name, fn_name):
    v = ret.value
    ok = (isinstance(v, ast.Call) and isinstance(v.func, ast.Name) and v.func.id == "GibbsKernel" and not v.keywords
          and len(v.args) == 2 and isinstance(v.args[0], ast.List) and len(v.args[0].elts) == 1
          and isinstance(v.args[0].elts[0], ast.Name) and v.args[0].elts[0].id == key_name
          and isinstance(v.args[1], ast.Name) and v.args[1].id == fn_name)
    if not ok:
        m.fail(ret, f"the kernel is not returned as GibbsKernel([{key_name}], {fn_name})")


# -------------------------------------------------------------------------------------------------
# tau2_gibbs_kernel
# -------------------------------------------------------------------------------------------------
class Tau2:
    def __init__(self, m: Module, outer: ast.FunctionDef):
        self.m, self.outer = m, outer
        self.env = {}           # python local -> 'R' | 'vec' | 'mat'

    def fail(self, node, what):
        self.m.fail(node, what)

    def translate(self):
        m, outer = self.m, self.outer
        a = outer.args
        if a.vararg or a.kwarg or a.kwonlyargs or a.posonlyargs or a.defaults or len(a.args) != 1:
            m.fail(outer, "tau2_gibbs_kernel does not take exactly one plain parameter (the group)")
        self.group = a.args[0].arg
        m.gibbs_kernel_imported()
        body = [s for s in outer.body if not is_doc(s)]
        pk, inner, ret = None, None, None
        for i, s in enumerate(body):
            if isinstance(s, ast.Assign) and len(s.targets) == 1 and isinstance(s.targets[0], ast.Name) and pk is None:
                v = s.value
                ok = (isinstance(v, ast.Attribute) and v.attr == "name" and isinstance(v.value, ast.Subscript)
                      and isinstance(v.value.value, ast.Name) and v.value.value.id == self.group
                      and isinstance(v.value.slice, ast.Constant) and v.value.slice.value == "tau2")
                if not ok:
                    m.fail(s, f"statement of the kernel factory that is not `<key> = {self.group}[\"tau2\"].name`: "
                              + ast.unparse(s)[:60])
                pk = s.targets[0].id
            elif isinstance(s, ast.FunctionDef) and inner is None:
                inner = s
            elif isinstance(s, ast.Return) and i == len(body) - 1:
                ret = s
            else:
                m.fail(s, "statement of the kernel factory outside the translated shape: " + ast.unparse(s)[:60])
        if pk is None or inner is None or ret is None:
            m.fail(outer, "kernel factory without position key / transition function / return")
        check_return_kernel(m, ret, pk, inner.name)
        self.pk = pk
        params = plain_params(m, inner, 2, "the transition function")
        self.key, self.state = params
        self.reserved = {self.group, pk, self.key, self.state, inner.name, "GibbsKernel"} | set(m.aliases)
        if len(self.reserved) < 6 + len(m.aliases):
            m.fail(inner, "parameters / position key / group share a name")
        forbid(m, inner, ())
        for sub in ast.walk(inner):
            if sub is not inner and isinstance(sub, (ast.FunctionDef, ast.For)):
                m.fail(sub, type(sub).__name__ + " inside " + inner.name)
        for nme in stored_names(inner):
            if nme in self.reserved:
                m.fail(inner, f"{nme} is re-bound inside {inner.name}")
        out, result = [], None
        stmts = [s for s in inner.body if not is_doc(s) and not isinstance(s, ast.Pass)]
        for i, s in enumerate(stmts):
            if isinstance(s, ast.Return):
                if i != len(stmts) - 1:
                    self.fail(s, "return that is not the last statement")
                v = s.value
                if not (isinstance(v, ast.Dict) and len(v.keys) == 1 and isinstance(v.keys[0], ast.Name)
                        and v.keys[0].id == pk):
                    self.fail(s, f"the transition does not return {{{pk}: <value>}}")
                result = self.typed(v.values[0], "R")
                continue
            if isinstance(s, ast.Assign):
                if len(s.targets) != 1 or not isinstance(s.targets[0], ast.Name):
                    self.fail(s, "assignment target " + ast.unparse(s.targets[0])[:40])
                self.bind(s.targets[0].id, *self.expr(s.value), s, out)
                continue
            if isinstance(s, ast.AnnAssign):
                if s.value is None or not isinstance(s.target, ast.Name):
                    self.fail(s, "annotated assignment without value / to a non-name")
                self.bind(s.target.id, *self.expr(s.value), s, out)
                continue
            if isinstance(s, ast.AugAssign):
                if type(s.op) not in ARITH or not isinstance(s.target, ast.Name) or self.env.get(s.target.id) != "R":
                    self.fail(s, "augmented assignment " + ast.unparse(s)[:40])
                self.bind(s.target.id, f"(v_{s.target.id} {ARITH[type(s.op)]} {self.typed(s.value, 'R')})", "R", s, out)
                continue
            self.fail(s, "statement " + type(s).__name__ + ": " + ast.unparse(s)[:50])
        if result is None:
            self.fail(inner, "the transition function does not end in a return")
        sig = " ".join(f"(s_{k} : {COQ_TYPE[t]})" for k, t in GROUP_KEYS)
        txt = (f"Definition gen_tau2_transition (Key : Type) (gamma : Key -> R -> R) (k_{self.key} : Key)\n"
               f"    {sig} : R :=\n  " + "\n  ".join(out + [result]) + ".")
        return txt, [m.info(outer, inner, f"tau2_gibbs_kernel / nested {inner.name}")]

    def bind(self, name, s, ty, node, out):
        if name in self.env and self.env[name] != ty:
            self.fail(node, f"local {name} changes its type")
        self.env[name] = ty
        out.append(f"let v_{name} := {s} in")

    def typed(self, e, ty):
        s, t = self.expr(e)
        if t != ty:
            self.fail(e, f"a {t} where a {ty} is needed: " + ast.unparse(e)[:50])
        return s

    def matmul(self, node, x, y):
        (a, ta), (b, tb) = self.expr(x), self.expr(y)
        if (ta, tb) == ("vec", "vec"):
            return f"(dot {a} {b})", "R"
        if (ta, tb) == ("mat", "vec"):
            return f"(matvec {a} {b})", "vec"
        if (ta, tb) == ("vec", "mat"):
            return f"(vecmat {a} {b})", "vec"
        self.fail(node, f"matrix product of a {ta} and a {tb}")

    def expr(self, e):
        if isinstance(e, ast.Constant):
            if isinstance(e.value, bool) or not isinstance(e.value, (int, float)):
                self.fail(e, "constant " + repr(e.value)[:30])
            if isinstance(e.value, float):
                if e.value != e.value or e.value in (float("inf"), float("-inf")):
                    self.fail(e, "non-finite float literal")
                return rlit(Fraction(repr(e.value))), "R"
            return rlit(Fraction(e.value)), "R"
        if isinstance(e, ast.Name):
            if e.id in self.env:
                return "v_" + e.id, self.env[e.id]
            self.fail(e, f"name {e.id} (not a local assigned before; closure variables other than the position key are not translated)")
        if isinstance(e, ast.UnaryOp):
            if isinstance(e.op, ast.USub):
                return f"(- {self.typed(e.operand, 'R')})", "R"
            if isinstance(e.op, ast.UAdd):
                return self.typed(e.operand, "R"), "R"
            self.fail(e, "unary operator " + type(e.op).__name__)
        if isinstance(e, ast.BinOp):
            if type(e.op) in ARITH:
                return f"({self.typed(e.left, 'R')} {ARITH[type(e.op)]} {self.typed(e.right, 'R')})", "R"
            if isinstance(e.op, ast.MatMult):
                return self.matmul(e, e.left, e.right)
            self.fail(e, "binary operator " + type(e.op).__name__)
        if isinstance(e, ast.Call):
            return self.call(e)
        self.fail(e, "expression " + type(e).__name__ + ": " + ast.unparse(e)[:50])

    def call(self, e):
        if e.keywords:
            self.fail(e, "call with keyword arguments: " + ast.unparse(e)[:50])
        f, n = e.func, len(e.args)
        if isinstance(f, ast.Attribute) and isinstance(f.value, ast.Name) and f.value.id == self.group:
            if f.attr != "value_from":
                self.fail(e, f"method {f.attr} of the group (not in the library-call table)")
            if n != 2 or not (isinstance(e.args[0], ast.Name) and e.args[0].id == self.state):
                self.fail(e, f"value_from is not applied to the model state `{self.state}` handed to the kernel")
            k = e.args[1]
            if not (isinstance(k, ast.Constant) and isinstance(k.value, str)) or k.value not in KEY_TYPE:
                self.fail(e, "value_from with a key outside the key table: " + ast.unparse(k)[:30])
            return "s_" + k.value, KEY_TYPE[k.value]
        name = self.m.dotted(f, set(self.env) | self.reserved - set(self.m.aliases))
        if name is None:
            self.fail(e, "call of " + ast.unparse(f)[:50] + " (not in the library-call table)")
        if name == "jax.random.gamma":
            if n != 2 or not (isinstance(e.args[0], ast.Name) and e.args[0].id == self.key):
                self.fail(e, f"jax.random.gamma is not called as gamma({self.key}, <concentration>)")
            return f"(gamma k_{self.key} {self.typed(e.args[1], 'R')})", "R"
        mod, _, fn = name.rpartition(".")
        if mod in NUMERIC_MODULES:
            if fn in IDENT_CALLS and n == 1:
                return self.typed(e.args[0], "R"), "R"
            if fn in UNARY_CALLS and n == 1:
                return f"({UNARY_CALLS[fn]} {self.typed(e.args[0], 'R')})", "R"
            if fn in BINARY_CALLS and n == 2:
                return f"({BINARY_CALLS[fn]} {self.typed(e.args[0], 'R')} {self.typed(e.args[1], 'R')})", "R"
            if fn in MATMUL_CALLS and n == 2:
                return self.matmul(e, e.args[0], e.args[1])
        self.fail(e, f"call of {ast.unparse(f)[:50]} with {n} arguments (not in the library-call table)")


# -------------------------------------------------------------------------------------------------
# finite_discrete_gibbs_kernel
# -------------------------------------------------------------------------------------------------
PRIM = "V F interp dflt g"


class Discrete:
    def __init__(self, m: Module, outer: ast.FunctionDef):
        self.m, self.outer = m, outer

    def fail(self, node, what):
        self.m.fail(node, what)

    def is_model(self, n):
        return isinstance(n, ast.Name) and n.id == self.model

    def translate(self):
        m, outer = self.m, self.outer
        a = outer.args
        if a.vararg or a.kwarg or a.kwonlyargs or a.posonlyargs or len(a.args) != 3:
            m.fail(outer, "finite_discrete_gibbs_kernel does not take exactly (name, model, outcomes)")
        self.name, self.model, self.outcomes = (x.arg for x in a.args)
        m.gibbs_kernel_imported()
        if m.aliases.get("jax") != "jax":
            raise Unsupported(f"{m.rel}: jax is not `import jax`")
        body = [s for s in outer.body if not is_doc(s)]
        # ---- the untranslated prelude: everything before `model = model._copy_computational_model()`
        cut = None
        for i, s in enumerate(body):
            if (isinstance(s, ast.Assign) and len(s.targets) == 1 and self.is_model(s.targets[0])
                    and isinstance(s.value, ast.Call) and not s.value.args and not s.value.keywords
                    and isinstance(s.value.func, ast.Attribute) and s.value.func.attr == "_copy_computational_model"
                    and self.is_model(s.value.func.value)):
                cut = i
                break
        if cut is None:
            m.fail(outer, f"no statement `{self.model} = {self.model}._copy_computational_model()`")
        prelude_locals = set()
        for s in body[:cut]:
            for sub in ast.walk(s):
                if isinstance(sub, (ast.FunctionDef, ast.Lambda, ast.ClassDef, ast.Global, ast.Nonlocal)):
                    m.fail(sub, type(sub).__name__ + " in the outcome-extraction prelude")
                if isinstance(sub, (ast.Attribute, ast.Subscript)) and isinstance(sub.ctx, (ast.Store, ast.Del)):
                    m.fail(sub, "the prelude stores into " + ast.unparse(sub)[:40])
                if isinstance(sub, ast.Call) and isinstance(sub.func, ast.Attribute) and self.is_model(sub.func.value):
                    m.fail(sub, "the prelude calls a method of the model: " + ast.unparse(sub)[:40])
            st = stored_names(s)
            if self.name in st or self.model in st:
                m.fail(s, "the prelude re-binds the name / the model")
            prelude_locals |= st - {self.outcomes}
        rest = body[cut + 1:]
        if not rest:
            m.fail(outer, "nothing after the model copy")
        s = rest[0]
        ok = (isinstance(s, ast.Assign) and len(s.targets) == 1 and isinstance(s.targets[0], ast.Attribute)
              and s.targets[0].attr == "auto_update" and self.is_model(s.targets[0].value)
              and isinstance(s.value, ast.Constant) and s.value.value is False)
        if not ok:
            m.fail(s, f"the statement after the model copy is not `{self.model}.auto_update = False` "
                      "(the theorems need auto-update switched off)")
        if len(rest) != 3 or not isinstance(rest[1], ast.FunctionDef) or not isinstance(rest[2], ast.Return):
            m.fail(rest[1] if len(rest) > 1 else s,
                   "statements of the kernel factory outside the translated shape (after the model copy exactly: "
                   "auto_update = False, def of the transition function, return GibbsKernel(...))")
        trans = rest[1]
        check_return_kernel(m, rest[2], self.name, trans.name)
        self.key, self.state = plain_params(m, trans, 2, "the transition function")
        self.reserved = {self.name, self.model, self.outcomes, self.key, self.state, trans.name, "GibbsKernel"} | set(m.aliases)
        if len(self.reserved) < 7 + len(m.aliases):
            m.fail(trans, "parameters share a name")
        forbid(m, trans, ())
        self.env = {}          # local -> 'logits' | 'index' | 'value'
        self.closure = None    # (python name, gallina text)
        self.model_ok = True
        out, result = [], None
        closers = 0
        stmts = [s for s in trans.body if not is_doc(s) and not isinstance(s, ast.Pass)]
        loopvars = set()
        for s in stmts:
            if isinstance(s, ast.For) and isinstance(s.target, ast.Name):
                loopvars.add(s.target.id)
        for nme in stored_names(trans):
            if nme in self.reserved or nme in prelude_locals:
                m.fail(trans, f"{nme} is re-bound inside {trans.name}")
        for i, s in enumerate(stmts):
            last = i == len(stmts) - 1
            if isinstance(s, ast.Return):
                if not last:
                    self.fail(s, "return that is not the last statement")
                v = s.value
                if not (isinstance(v, ast.Dict) and len(v.keys) == 1 and isinstance(v.keys[0], ast.Name)
                        and v.keys[0].id == self.name):
                    self.fail(s, f"the transition does not return {{{self.name}: <value>}}")
                txt, n = self.value_expr(v.values[0], "r_")
                closers += n
                result = txt
                continue
            if isinstance(s, ast.FunctionDef):
                if self.closure is not None:
                    self.fail(s, "a second nested function")
                self.closure = (s.name, self.closure_def(s))
                continue
            if isinstance(s, ast.For):
                self.need_model(s)
                ok = (isinstance(s.target, ast.Name) and not s.orelse and len(s.body) == 1
                      and isinstance(s.iter, ast.Call) and not s.iter.args and not s.iter.keywords
                      and isinstance(s.iter.func, ast.Attribute) and s.iter.func.attr == "values"
                      and isinstance(s.iter.func.value, ast.Attribute) and s.iter.func.value.attr == "nodes"
                      and self.is_model(s.iter.func.value.value))
                b = s.body[0] if s.body else None
                ok = ok and (isinstance(b, ast.Assign) and len(b.targets) == 1 and isinstance(b.targets[0], ast.Attribute)
                             and b.targets[0].attr == "_outdated" and isinstance(b.targets[0].value, ast.Name)
                             and b.targets[0].value.id == s.target.id
                             and isinstance(b.value, ast.Constant) and b.value.value is False)
                if not ok:
                    self.fail(s, "loop that is not `for n in model.nodes.values(): n._outdated = False`")
                out.append(f"let m_ := model_clear_outdated V m_ in")
                continue
            if isinstance(s, ast.Assign) and len(s.targets) == 1:
                t, v = s.targets[0], s.value
                if isinstance(t, ast.Attribute) and self.is_model(t.value):
                    self.need_model(s)
                    if t.attr != "state" or not (isinstance(v, ast.Name) and v.id == self.state):
                        self.fail(s, f"assignment to the model other than `{self.model}.state = {self.state}`: " + ast.unparse(s)[:50])
                    out.append(f"let m_ := model_set_state V m_ v_{self.state} in")
                    continue
                if isinstance(t, ast.Name):
                    if t.id in loopvars:
                        self.fail(s, f"{t.id} is also a loop variable")
                    n = self.assign(t.id, v, s, out)
                    closers += n
                    continue
            self.fail(s, "statement " + type(s).__name__ + ": " + ast.unparse(s)[:60])
        if result is None:
            self.fail(trans, "the transition function does not end in a return")
        if self.closure is None:
            self.fail(trans, "no nested conditional-log-probability function")
        sig = (f"(v lp ll lpr : nat) (Key : Type) (categorical : Key -> list V -> nat)\n"
               f"    (m_ : mstate V) (k_{self.key} : Key) (v_{self.state} : snap V) (outcomes : list V) : option V")
        txt = (self.closure[1] + "\n\n" +
               f"Definition gen_transition_fn {sig} :=\n  " + "\n  ".join(out + [result + ")" * closers]) + ".")
        return txt, [m.info(outer, trans, f"finite_discrete_gibbs_kernel / nested {trans.name} and {self.closure[0]}")]

    def need_model(self, node):
        if not self.model_ok:
            self.fail(node, "the model object is used after jax.vmap traced a function that mutates it (its state is "
                            "not defined there)")

    # ---- def conditional_log_prob_fn(value) ------------------------------------------------------
    def closure_def(self, fn):
        m = self.m
        (par,) = plain_params(m, fn, 1, "the nested function")
        if par in self.reserved:
            m.fail(fn, f"parameter {par} shadows a name of the kernel")
        for sub in ast.walk(fn):
            if sub is not fn and isinstance(sub, (ast.FunctionDef, ast.For)):
                m.fail(sub, type(sub).__name__ + " inside " + fn.name)
        if stored_names(fn):
            m.fail(fn, "the nested function binds local names: " + ", ".join(sorted(stored_names(fn))))
        out, closers, result = [], 0, None
        stmts = [s for s in fn.body if not is_doc(s) and not isinstance(s, ast.Pass)]
        for i, s in enumerate(stmts):
            if isinstance(s, ast.Return):
                if i != len(stmts) - 1:
                    m.fail(s, "return that is not the last statement")
                v = s.value
                if not (isinstance(v, ast.Attribute) and self.is_model(v.value) and v.attr in MODEL_PROPS):
                    m.fail(s, "the nested function does not return model.log_prob / log_lik / log_prior: " + ast.unparse(s)[:50])
                result = f"Some (model_node_value {PRIM} {MODEL_PROPS[v.attr]} m_)"
                continue
            if isinstance(s, ast.Assign) and len(s.targets) == 1:
                t = s.targets[0]
                ok = (isinstance(t, ast.Attribute) and t.attr == "value" and isinstance(t.value, ast.Subscript)
                      and isinstance(t.value.value, ast.Attribute) and t.value.value.attr == "vars"
                      and self.is_model(t.value.value.value)
                      and isinstance(t.value.slice, ast.Name) and t.value.slice.id == self.name)
                if not ok:
                    m.fail(s, f"assignment other than `{self.model}.vars[{self.name}].value = ...`: " + ast.unparse(s)[:50])
                if not (isinstance(s.value, ast.Name) and s.value.id == par):
                    m.fail(s, f"the variable is not assigned the argument `{par}`: " + ast.unparse(s.value)[:40])
                out.append(f"py_bind (model_set_value {PRIM} v m_ v_{par}) (fun m_ =>")
                closers += 1
                continue
            if isinstance(s, ast.Expr) and isinstance(s.value, ast.Call):
                c = s.value
                if not (isinstance(c.func, ast.Attribute) and self.is_model(c.func.value) and c.func.attr == "update") or c.keywords:
                    m.fail(s, "call other than model.update(...): " + ast.unparse(s)[:50])
                ts = []
                for x in c.args:
                    if not (isinstance(x, ast.Constant) and isinstance(x.value, str) and x.value in NODE_NAMES):
                        m.fail(s, "model.update of a node outside the node-name table: " + ast.unparse(x)[:40])
                    ts.append(NODE_NAMES[x.value])
                out.append(f"py_bind (model_update {PRIM} [{'; '.join(ts)}] m_) (fun m_ =>")
                closers += 1
                continue
            m.fail(s, "statement of the nested function: " + ast.unparse(s)[:60])
        if result is None:
            m.fail(fn, "the nested function does not end in a return")
        return (f"Definition gen_conditional_log_prob_fn (v lp ll lpr : nat) (m_ : mstate V) (v_{par} : V) : option V :=\n  "
                + "\n  ".join(out + [result + ")" * closers]) + ".")

    # ---- x = <right-hand side> in transition_fn -----------------------------------------------------
    def assign(self, name, v, node, out):
        """appends the binding; returns the number of parentheses to close at the end"""
        if name in self.env:
            self.fail(node, f"local {name} is assigned twice")
        if isinstance(v, ast.Call):
            f = v.func
            # jax.vmap(f)(outcomes)
            if isinstance(f, ast.Call) and self.m.dotted(f.func, set(self.env) | self.reserved - set(self.m.aliases)) == "jax.vmap":
                if f.keywords or len(f.args) != 1 or not isinstance(f.args[0], ast.Name):
                    self.fail(node, "jax.vmap with arguments other than one function name")
                if self.closure is None or f.args[0].id != self.closure[0]:
                    self.fail(node, f"jax.vmap of {f.args[0].id}, which is not the nested function defined before")
                if v.keywords or len(v.args) != 1 or not (isinstance(v.args[0], ast.Name) and v.args[0].id == self.outcomes):
                    self.fail(node, f"the vmapped function is not applied to `{self.outcomes}`: " + ast.unparse(v)[:60])
                self.need_model(node)
                self.model_ok = False
                self.env[name] = "logits"
                out.append(f"py_bind (vmap (gen_conditional_log_prob_fn v lp ll lpr m_) outcomes) (fun v_{name} =>")
                return 1
            nm = self.m.dotted(f, set(self.env) | self.reserved - set(self.m.aliases))
            if nm == "jax.random.categorical":
                args = list(v.args)
                kws = {k.arg: k.value for k in v.keywords}
                if len(args) == 1 and set(kws) == {"logits"}:
                    args.append(kws["logits"])
                elif kws or len(args) != 2:
                    self.fail(node, "jax.random.categorical is not called as categorical(key, logits)")
                if not (isinstance(args[0], ast.Name) and args[0].id == self.key):
                    self.fail(node, f"jax.random.categorical is not given the key `{self.key}`")
                if not (isinstance(args[1], ast.Name) and self.env.get(args[1].id) == "logits"):
                    self.fail(node, "the logits of jax.random.categorical are not the result of the vmapped function: "
                              + ast.unparse(args[1])[:40])
                self.env[name] = "index"
                out.append(f"let v_{name} := categorical k_{self.key} v_{args[1].id} in")
                return 0
            self.fail(node, "call of " + ast.unparse(f)[:50] + " (not in the library-call table)")
        if isinstance(v, ast.Subscript):
            txt = self.subscript(v)
            self.env[name] = "value"
            out.append(f"py_bind ({txt}) (fun v_{name} =>")
            return 1
        if isinstance(v, ast.Name) and self.env.get(v.id) in ("index", "value", "logits"):
            self.env[name] = self.env[v.id]
            out.append(f"let v_{name} := v_{v.id} in")
            return 0
        self.fail(node, "right-hand side " + ast.unparse(v)[:60])

    def subscript(self, v):
        if not (isinstance(v.value, ast.Name) and v.value.id == self.outcomes):
            self.fail(v, "subscript of something other than the outcomes: " + ast.unparse(v)[:40])
        if not (isinstance(v.slice, ast.Name) and self.env.get(v.slice.id) == "index"):
            self.fail(v, "the outcomes are not indexed by the result of jax.random.categorical: " + ast.unparse(v)[:40])
        return f"nth_error outcomes v_{v.slice.id}"

    def value_expr(self, e, fresh):
        """-> (text of type option V, number of parentheses still to close)"""
        if isinstance(e, ast.Name) and self.env.get(e.id) == "value":
            return f"Some v_{e.id}", 0
        if isinstance(e, ast.Subscript):
            return self.subscript(e), 0
        self.fail(e, "returned value " + ast.unparse(e)[:50])


# -------------------------------------------------------------------------------------------------
def translate(root: str):
    """returns {section: {"text": gallina, "info": [..]} or {"error": message}} for the sections tau2, discrete"""
    res = {}
    for sec, rel, fname, cls in (("tau2", DISTREG_PY, "tau2_gibbs_kernel", Tau2),
                                 ("discrete", GOOSE_PY, "finite_discrete_gibbs_kernel", Discrete)):
        try:
            m = Module(root, rel)
            protected = set(m.aliases) | {"GibbsKernel"}
            outer = m.check_module(fname, protected)
            t, i = cls(m, outer).translate()
            res[sec] = {"text": t, "info": i}
        except Unsupported as ex:
            res[sec] = {"error": str(ex)}
        except RecursionError as ex:
            res[sec] = {"error": "translator recursion limit: " + str(ex)}
        except Exception as ex:      # fail closed on anything unexpected
            res[sec] = {"error": f"translator aborted: {type(ex).__name__}: {ex}"}
    return res


if __name__ == "__main__":
    r = translate(sys.argv[1] if len(sys.argv) > 1 else "/repo")
    for sec, d in r.items():
        print(f"(* ---- {sec} ---- *)")
        if "error" in d:
            print("(* FAILED CLOSED:", d["error"], "*)")
        else:
            for i in d["info"]:
                print(f"(* {i['file']} {i['function']} lines {i['lines'][0]}-{i['lines'][1]} sha256 {i['sha256'][:16]} *)")
            print(d["text"])
