"""C14 finding F-C14-dep-chain: chained transformation through the DEPRECATED GraphBuilder.transform.

STATUS: repaired in /repo by commit b548a17 (`_transform_back` now builds `Calc(fn, var_transformed, ...)`).
On the repaired tree this script prints "ok" four times and exits 0; with b548a17 reverted it exits 1.

x ~ Gamma(2, 1) is transformed with Exp() (t1 = log x), then t1 is transformed with Scale(2.) (t2 = t1 / 2),
both through GraphBuilder.transform.  As found, model.py:_transform_back bound the original variable's Calc to
`var_transformed.value_node` (the raw Value node) instead of the variable (its VarValue proxy).  The second
transformation replaces t1's value node by a Calc, the old Value node is orphaned, and

  (a) after assigning t2 and updating the chain, x stayed frozen at its old value: x was no longer the bijector
      image exp(t1) = exp(2 t2) of the new variable (C14: "makes it the bijector image of the new unconstrained
      variable");
  (b) build_model() raised  RuntimeError: Duplicate node names: x_transformed_value  (the orphaned Value node and
      the new Calc carried the same name), so the chained model could not be built at all.

The same chain through Var.transform was always correct (printed last).  The analogous mistake seeded into
_transform_var_with_bijector_instance is /verif/seeded/C14-4.  Coq: C14_dep_chain_rawnode_refuted is the witness for
the as-found variant (RawNode), C14_chain_up_proxy ties the repaired variant (Proxy) to the positive theorems; the
check (`./check C14`) runs deprecated chains on every run.

Run:  PYTHONPATH=/repo JAX_PLATFORMS=cpu /venv/bin/python /verif/notes/C14_deprecated_chained_transform_repro.py
Exit status 1 if the defect is present, 0 otherwise.
"""
import sys
import warnings

warnings.filterwarnings("ignore")
import logging

logging.getLogger("liesel").setLevel(logging.ERROR)
import numpy as np
import tensorflow_probability.substrates.jax.bijectors as tfb
import tensorflow_probability.substrates.jax.distributions as tfd

import liesel.model as lsl

bad = False


def chain(deprecated):
    x = lsl.param(3.0, lsl.Dist(tfd.Gamma, 2.0, 1.0), name="x")
    gb = lsl.GraphBuilder()
    if deprecated:
        t1 = gb.transform(x, tfb.Exp())
        t2 = gb.transform(t1, tfb.Scale(2.0))
    else:
        t1 = x.transform(tfb.Exp())
        t2 = t1.transform(tfb.Scale(2.0))
        gb.add(x)
    return x, t1, t2, gb


for deprecated in (True, False):
    label = "GraphBuilder.transform" if deprecated else "Var.transform"
    x, t1, t2, gb = chain(deprecated)
    t2.value = 0.25
    for v in (t2, t1, x):
        v.update()
    ok = np.allclose(float(x.value), np.exp(0.5), rtol=1e-5)
    print(f"{label}: t2 = 0.25 -> t1 = {float(t1.value):.4f}, x = {float(x.value):.4f} (expected exp(2 t2) = {np.exp(0.5):.4f})"
          f"  {'ok' if ok else 'STALE: x is not the image of the new variable'}")
    bad |= deprecated and not ok
    try:
        model = gb.build_model()
        print(f"{label}: build_model ok, variables {sorted(model.vars)}")
    except Exception as ex:
        print(f"{label}: build_model raised {type(ex).__name__}: {ex}")
        bad |= deprecated
sys.exit(1 if bad else 0)
