"""C06 side finding (documentation, not code): the sign convention in the docstring of
liesel.goose.mh_kernel.MHProposal.log_correction contradicts liesel.goose.mh.mh_step.

  MHProposal docstring :  log_correction = log( q(x'|x) / q(x|x') )
  mh_step docstring    :  log_correction = log( q(x|x') / q(x'|x) )      <- what the code adds

MHKernel forwards proposal.log_correction to mh_step unchanged, so a proposal function written to the
MHProposal docstring gets the NEGATED correction and the chain is not in detailed balance.

Run:  PYTHONPATH=/repo JAX_PLATFORMS=cpu /venv/bin/python /verif/notes/C06_mhproposal_docstring_sign.py
Demonstration with the real mh_step: standard normal target, autoregressive proposal x' ~ N(x/2, 1),
moves 0 -> 1 and 1 -> 0.  Detailed balance  pi(x) q(x'|x) a(x,x') = pi(x') q(x|x') a(x',x)  holds with
mh_step's convention and fails with the MHProposal docstring's.
(Machine-checked counterpart: Theorem C06_mhproposal_docstring_sign_refuted in /verif/coq/Properties/C06.v.)
"""
import inspect
import math

import jax
import jax.numpy as jnp

jax.config.update("jax_enable_x64", True)
import liesel.goose as gs
from liesel.goose.mh import mh_step
from liesel.goose.mh_kernel import MHProposal

src = inspect.getsource(MHProposal)
print("MHProposal docstring :", " ".join(src[src.index("log_correction"):].split())[:160])
print("mh_step docstring    :", [l.strip() for l in mh_step.__doc__.splitlines() if "log[q" in l or "log(q" in l])

model = gs.DictInterface(lambda st: -0.5 * st["x"] ** 2)
pi = lambda x: math.exp(-0.5 * x * x)
q = lambda a, b: math.exp(-0.5 * (b - 0.5 * a) ** 2) / math.sqrt(2 * math.pi)      # density of proposing b from a


def alpha(x, xp, corr):
    info, _ = mh_step(jax.random.PRNGKey(0), model, {"x": jnp.float64(xp)}, {"x": jnp.float64(x)}, corr)
    return float(info.acceptance_prob)


bad = False
for name, corr in [("mh_step convention     log q(x|x')/q(x'|x)", lambda x, xp: math.log(q(xp, x) / q(x, xp))),
                   ("MHProposal docstring   log q(x'|x)/q(x|x')", lambda x, xp: math.log(q(x, xp) / q(xp, x)))]:
    a01, a10 = alpha(0.0, 1.0, corr(0.0, 1.0)), alpha(1.0, 0.0, corr(1.0, 0.0))
    lhs, rhs = pi(0.0) * q(0.0, 1.0) * a01, pi(1.0) * q(1.0, 0.0) * a10
    ok = abs(lhs - rhs) < 1e-12
    print(f"{name}: a(0->1)={a01:.6f} a(1->0)={a10:.6f}  flow 0->1 = {lhs:.6f}  flow 1->0 = {rhs:.6f}  detailed balance: {ok}")
    if name.startswith("MHProposal") and not ok:
        bad = True
print("RESULT:", "the MHProposal docstring convention breaks detailed balance (documentation defect)" if bad else "no discrepancy")
