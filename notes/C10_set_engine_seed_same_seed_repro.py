"""C10 observation (not a violation of the property text, which speaks of kernel calls only):
giving the constructor's seed again to EngineBuilder.set_engine_seed makes the engine key the very key the
builder's jitter key was split from.  With 3 chains, 2 jitter functions and 3 kernels the init_state call
of kernel i in chain 2 receives the same PRNG key as jitter function 1 in chain i.

    PYTHONPATH=/repo JAX_PLATFORMS=cpu /venv/bin/python /verif/notes/C10_set_engine_seed_same_seed_repro.py

Predicted by Coq (Properties/C10.v: C10_engine_seed_same_seed_collides); C10_key_hygiene_engine_seed needs the
engine key and the jitter key to be unrelated, which the constructor's own keys are.
"""
import jax
import jax.numpy as jnp
import numpy as np
import liesel.goose as gs
from liesel.goose.epoch import EpochConfig, EpochType
from liesel.goose.kernel import (DefaultTransitionInfo, DefaultTuningInfo, ModelMixin, TransitionOutcome,
                                 TuningOutcome, WarmupOutcome)

SEED, CHAINS = 1, 3
seen_by_jitter = {}


class KeyKernel(ModelMixin):
    """kernel state = the key init_state received"""
    error_book = {0: "no errors"}
    needs_history = False
    identifier = ""

    def __init__(self, i):
        self.position_keys = (f"p{i}",)
        self._model = None

    def init_state(self, prng_key, model_state):
        return jnp.asarray(prng_key, dtype=jnp.uint32)

    def start_epoch(self, prng_key, kernel_state, model_state, epoch):
        return kernel_state

    def end_epoch(self, prng_key, kernel_state, model_state, epoch):
        return kernel_state

    def transition(self, prng_key, kernel_state, model_state, epoch):
        info = DefaultTransitionInfo(jnp.int32(0), jnp.float32(1.0), jnp.int32(0))
        return TransitionOutcome(info, kernel_state, model_state)

    def tune(self, prng_key, kernel_state, model_state, epoch, history):
        return TuningOutcome(DefaultTuningInfo(jnp.int32(0), epoch.time), kernel_state)

    def end_warmup(self, prng_key, kernel_state, model_state, tuning_history):
        return WarmupOutcome(jnp.int32(0), kernel_state)


def jitter(key, value):           # value: uint32[2]; the jittered value is the key itself
    return jnp.asarray(key, dtype=jnp.uint32)


builder = gs.EngineBuilder(seed=SEED, num_chains=CHAINS)
builder.set_engine_seed(SEED)                              # the same seed again
builder.show_progress = False
builder.store_kernel_states = True
builder.set_model(gs.DictInterface(lambda st: jnp.float32(0.0)))
for i in range(3):
    builder.add_kernel(KeyKernel(i))
builder.set_initial_values({f"p{i}": jnp.zeros((2,), dtype=jnp.uint32) for i in range(3)})
builder.set_jitter_fns({"p0": jitter, "p1": jitter})
builder.set_epochs([EpochConfig(EpochType.INITIAL_VALUES, 1, 1, None), EpochConfig(EpochType.POSTERIOR, 1, 1, None)])
engine = builder.build()
engine.sample_all_epochs()
res = engine.get_results()
first = res.positions.combine_all().unwrap()                # [chain, time, 2]
jitter_keys = {("jitter fn %d" % f, "chain %d" % c): tuple(int(x) for x in np.asarray(first[f"p{f}"])[c, 0])
               for f in range(2) for c in range(CHAINS)}
ks = res.kernel_states.unwrap().combine_all().unwrap()      # list per kernel: [chain, time, 2]
init_keys = {("init_state kernel %d" % i, "chain %d" % c): tuple(int(x) for x in np.asarray(ks[i])[c, 0])
             for i in range(3) for c in range(CHAINS)}
shared = [(a, b, k) for a, k in jitter_keys.items() for b, k2 in init_keys.items() if k == k2]
for a, b, k in shared:
    print("same PRNG key", k, "handed to", a, "and to", b)
if not shared:
    print("no shared keys")
raise SystemExit(1 if shared else 0)
