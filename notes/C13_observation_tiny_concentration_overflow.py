"""Observation made while building the C13 check (NOT a defect of the kernel's logic; numerical range).

tau2_gibbs_kernel draws  b_gibbs / jax.random.gamma(key, a_gibbs).  For a zero penalty (rank 0) and a
very small prior concentration (a = 2^-10; the popular "non-informative" IG(0.001, 0.001) prior is of this
size) a_gibbs = a, and a Gamma(a) variate lies below the smallest positive float with probability
(1e-308)^a / Gamma(a+1) ~ 0.5.  jax.random.gamma then returns exactly 0 and the kernel returns tau2 = inf
for about half of the keys (the true full conditional puts that mass on finite values beyond 1.8e308).
With rank >= 1 the concentration is at least 0.5 and nothing overflows.

Run:  PYTHONPATH=/repo JAX_PLATFORMS=cpu /venv/bin/python /verif/notes/C13_observation_tiny_concentration_overflow.py
"""
import jax
jax.config.update("jax_enable_x64", True)
import jax.numpy as jnp
import numpy as np
import tensorflow_probability.substrates.jax.bijectors as tfb
import tensorflow_probability.substrates.jax.distributions as tfd

import liesel.goose as gs
from liesel.model.distreg import DistRegBuilder, tau2_gibbs_kernel

b = DistRegBuilder()
b.to_float32 = False
y = np.array([1.0, -0.5, 0.25])
X = np.array([[0.25, -0.5], [0.5, 0.25], [-0.75, 1.0]])
b.add_response(y, tfd.Normal)
b.add_predictor("loc", tfb.Identity)
b.add_predictor("scale", tfb.Exp)
b.add_p_smooth(np.ones((3, 1)), 0.0, 4.0, "scale", name="sc")
b.add_np_smooth(X, np.zeros((2, 2)), a=2.0 ** -10, b=2.0 ** -10, predictor="loc", name="s")
model = b.build_model()
iface = gs.LieselInterface(model)
kernel = tau2_gibbs_kernel(model.groups()["s"])
kernel.set_model(iface)
state = model.state
f = jax.jit(jax.vmap(lambda k: iface.extract_position(["s_tau2"], kernel.transition(k, {}, state, None).model_state)["s_tau2"]))
d = np.asarray(f(jax.random.split(jax.random.PRNGKey(0), 4000)))
print("draws equal to inf:", int(np.isinf(d).sum()), "of", len(d))
from scipy import special
print("mass of IG(a, b) beyond the float range:", 1 - float(special.gammaincc(2.0 ** -10, 2.0 ** -10 / 1.7e308)))
