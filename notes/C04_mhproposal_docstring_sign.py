"""Documentation inconsistency (not a code defect): the docstring of liesel.goose.mh_kernel.MHProposal.log_correction
says  log(q(x'|x) / q(x|x'))  but MHKernel hands the value unchanged to mh_step, whose docstring (and code, and the
repo's own test tests/goose/kernels/test_mh_kernel.py::proposal_asym_fn) need  log(q(x|x') / q(x'|x)).

A user proposal that follows the MHProposal docstring yields a kernel that does NOT leave the target invariant.
Exact 2-state demonstration (same witness as Coq theorem C04_correction_needed): uniform target w = (1, 1),
proposal q = [[1/2, 1/2], [1, 0]].

run:  PYTHONPATH=/repo JAX_PLATFORMS=cpu /venv/bin/python /verif/notes/C04_mhproposal_docstring_sign.py
"""
import jax
import jax.numpy as jnp
import numpy as np

import liesel.goose as gs
from liesel.goose.mh import mh_step

q = np.array([[0.5, 0.5], [1.0, 0.0]])
w = np.array([1.0, 1.0])
model = gs.DictInterface(lambda st: jnp.log(jnp.asarray(w))[st["x"]])


def matrix(sign):
    """exact transition matrix: P[x, y] = q[x, y] * acceptance_prob reported by the real mh_step"""
    P = np.zeros((2, 2))
    for x in range(2):
        for y in range(2):
            if x != y and q[x, y] > 0:
                corr = sign * (np.log(q[y, x]) - np.log(q[x, y]))      # sign=+1: mh_step's convention
                info, _ = mh_step(jax.random.PRNGKey(0), model, {"x": jnp.int32(y)}, {"x": jnp.int32(x)}, corr)
                P[x, y] = q[x, y] * float(info.acceptance_prob)
        P[x, x] = 1 - P[x].sum()
    return P


for name, sign in (("mh_step convention  log q(x|x')/q(x'|x)", +1), ("MHProposal docstring log q(x'|x)/q(x|x')", -1)):
    P = matrix(sign)
    print(name, "\n", P, "\n  w P - w =", w @ P - w)
