"""NOT a violation of property C14 (which quantifies over supported distribution/bijector pairs) - an
observation made while modelling Var.transform's refusals.

Var.transform(None) on a distribution WITHOUT a default event-space bijector is documented to raise
RuntimeError("... has distribution without default event space bijector and no bijector was given").
liesel/model/nodes.py compares the *bound method* `dist_inst.experimental_default_event_space_bijector`
with None (never true; the call parentheses are missing), so that branch is dead and the failure surfaces
later as  AttributeError: 'NoneType' object has no attribute '_is_injective'  from tfb.Invert(None).
The deprecated GraphBuilder.transform calls the method and raises the documented RuntimeError.

Run:  PYTHONPATH=/repo JAX_PLATFORMS=cpu /venv/bin/python /verif/notes/C14_observation_no_default_bijector.py
"""
import warnings

warnings.filterwarnings("ignore")
import liesel.model as lsl
import tensorflow_probability.substrates.jax.distributions as tfd


class NoDefaultNormal(tfd.Normal):
    def _default_event_space_bijector(self):
        return None


for label, call in [
    ("Var.transform(None)", lambda v: v.transform(None)),
    ("GraphBuilder.transform(v, None)", lambda v: lsl.GraphBuilder().transform(v, None)),
]:
    v = lsl.Var(0.3, lsl.Dist(NoDefaultNormal, loc=0.0, scale=1.0), name="x")
    try:
        call(v)
        print(label, "-> no exception")
    except Exception as ex:
        print(f"{label} -> {type(ex).__name__}: {str(ex)[:90]}")
