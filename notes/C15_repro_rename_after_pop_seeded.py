"""Stand-alone repro (C15 candidate finding, NOT alarmed by the check): after popping (or copying) a model that
contains a node with needs_seed=True, the nodes still carry the old `_model_<name>_seed` node as their "seed"
keyword input (pop / copy only drop it from the returned dict; build_model removes it later by the name pattern
startswith("_model_") and endswith("_seed")).  GraphBuilder.rename() walks the recursive inputs and therefore also
renames that stale seed node:

  rename("$", "_copy")  ->  "_model_s_seed_copy": no longer matches the pattern, is not removed, and the rebuild is
                            rejected with "has reserved name '_model*'";
  rename("^", "m1_")    ->  "m1__model_s_seed": accepted as an ordinary user node that stays wired as the node's
                            seed input, so no fresh _model_m1_s_seed node is connected and Model.set_seed() no longer
                            reaches that node.

Renaming through the node.name / var.name setters is fine (the stale seed keeps its name and is removed).
A repair at the root would detach the _model_*_seed inputs in pop_nodes_and_vars / copy_nodes_and_vars.

Run:  PYTHONPATH=/repo JAX_PLATFORMS=cpu /venv/bin/python /verif/notes/C15_repro_rename_after_pop_seeded.py
exit code 1 = the behaviour described above is present.
"""
import logging
import sys

import liesel.model as lsl

logging.getLogger("liesel").setLevel(logging.ERROR)


def popped():
    a = lsl.Value(1.0, _name="a")
    s = lsl.Calc(lambda x, seed: x, a, _name="s", _needs_seed=True)
    nodes, vs = lsl.GraphBuilder().add(s).build_model().pop_nodes_and_vars()
    return lsl.GraphBuilder().add(*nodes.values(), *vs.values())


bad = 0
try:
    popped().rename("$", "_copy").build_model()
    print("suffix rename: rebuilt")
except RuntimeError as e:
    print("suffix rename: rebuild rejected:", e)
    bad = 1
m = popped().rename("^", "m1_").build_model()
print("prefix rename: nodes", sorted(m.nodes))
if "_model_m1_s_seed" not in m.nodes:
    print("prefix rename: no seed node for m1_s; the old seed survives as", [n for n in m.nodes if "seed" in n])
    bad = 1
sys.exit(bad)
