"""Stand-alone repro (C17): simulate() visits a child before its ancestor when the child's distribution
parameter is computed from the log-probability (Dist) node of another variable.

Run:  PYTHONPATH=/repo JAX_PLATFORMS=cpu /venv/bin/python /verif/notes/C17_logprob_param_repro.py

Model:   x ~ Normal(loc(v), 1)            loc = three identity Calcs over the Value v = 1000
         d2 = Dist(Normal(0, 1)) evaluated at x (a stand-alone Dist node at x's proxy; e.g. a penalty)
         c  = Calc(-d2)                     = x^2 / 2 + const
         y ~ Normal(c, 1)
Model._build_simulation_graph reverses EVERY at -> Dist edge, also the edge x_var_value -> d2 of the Dist
that does not belong to x, so no path x_log_prob -> ... -> y_log_prob is left in the simulation graph and
networkx may (and here does) sort y's distribution before x's.  y is then drawn from c computed at the OLD
x = 0 (c ~ 0.92), afterwards x is drawn ~ 1000: in the final state y ~ -0.2 although its distribution,
evaluated at the newly drawn value of its ancestor x, is Normal(~ 498854, 1).
Model of the effect: /verif/coq/Properties/C17.v, C17_logprob_param_refuted; the positive theorem
C17_sim_graph_order carries the hypothesis "no parameter depends on a Dist node".
"""
import logging

import jax
import jax.numpy as jnp
import tensorflow_probability.substrates.jax.distributions as tfd

import liesel.model as lsl

logging.getLogger("liesel").setLevel(logging.ERROR)

v = lsl.Value(1000.0, _name="v")
loc = v
for i in range(3):
    loc = lsl.Calc(lambda a: a, loc, _name=f"l{i}")
x = lsl.Var(0.0, lsl.Dist(tfd.Normal, loc=loc, scale=1.0), name="x")
d2 = lsl.Dist(tfd.Normal, loc=0.0, scale=1.0, _name="d2")
d2.at = x.var_value_node
c = lsl.Calc(lambda lp: -lp, d2, _name="c")
y = lsl.Var(0.0, lsl.Dist(tfd.Normal, loc=c, scale=1.0), name="y")
gb = lsl.GraphBuilder()
gb.add(x, y, c, d2, v)
model = gb.build_model()

model.simulate(jax.random.PRNGKey(1))
model.update()
xv, cv, yv = float(model.vars["x"].value), float(model.nodes["c"].value), float(model.vars["y"].value)
print(f"x = {xv:.3f}   c = -log N(x; 0, 1) = {cv:.3f}   y = {yv:.3f}")
ok = abs(yv - cv) < 10.0
print("y is drawn around c evaluated at the newly drawn x:", ok)
raise SystemExit(0 if ok else 1)
