"""C11 - borderline observation (rounding only, no logic defect): a kernel's step size is re-derived as
exp(log(step_size)) at every epoch boundary, also around burn-in / posterior epochs.

start_epoch calls da_init (log_avg_step_size = log(step_size)) and end_epoch calls da_finalize
(step_size = exp(log_avg_step_size)) in EVERY epoch type.  Over the reals that is the identity
(theorem C11_frozen_epoch); in float32 exp(log(x)) != x for about half of all x (relative change
up to ~5e-7).  A step size that is itself a result of exp (the normal case: it was produced by
da_finalize after an adaptation epoch) is a fixed point, so the usual schedules are not affected.
Affected: a step size that never went through adaptation (initial_step_size of an untuned MHKernel, or
a schedule without adaptation epochs) and the step size of HMC/NUTS right after _tune_slow rescaled it:
the first non-adaptive epoch uses x, every later epoch uses exp(log(x)).
INSIDE an epoch the kernel state is bit-identical between transitions (that is what the C11 check
certifies); across the boundary of two non-adaptive epochs the check allows a float32 tolerance.

Run:  PYTHONPATH=/repo JAX_PLATFORMS=cpu /venv/bin/python /verif/notes/C11_epoch_boundary_rounding.py
"""
import logging

import jax.numpy as jnp
import numpy as np

import liesel.goose as gs
from liesel.goose.da import da_finalize, da_init
from liesel.goose.epoch import EpochConfig, EpochType
from liesel.goose.rw import RWKernelState

logging.getLogger("liesel").setLevel(logging.ERROR)

# 1. the mechanism, on the public da functions
cands = [0.3, 0.7, 0.01, 0.05, 0.1, 0.9, 1.3, 2.7, 0.025]
moved = []
for s0 in cands:
    ks = RWKernelState(step_size=jnp.float32(s0))
    da_init(ks)        # what start_epoch does
    da_finalize(ks)    # what end_epoch does
    if float(ks.step_size) != float(np.float32(s0)):
        moved.append(s0)
    print(f"step size {float(np.float32(s0))!r:>22} -> after one epoch without any adaptation {float(ks.step_size)!r}")
print("initial step sizes that do not survive an epoch boundary bit-for-bit:", moved)

# 2. the same through the engine: no adaptation epoch at all, two posterior epochs
if moved:
    s0 = moved[0]
    b = gs.EngineBuilder(seed=1, num_chains=1)
    b.show_progress = False
    b.store_kernel_states = True
    b.set_model(gs.DictInterface(lambda st: -0.5 * jnp.sum(st["x"] ** 2)))
    b.add_kernel(gs.RWKernel(["x"], initial_step_size=s0))
    b.set_initial_values({"x": jnp.zeros(2, dtype=jnp.float32)})
    sched = [(EpochType.INITIAL_VALUES, 1), (EpochType.BURNIN, 3), (EpochType.POSTERIOR, 3), (EpochType.POSTERIOR, 3)]
    b.set_epochs([EpochConfig(t, d, 1, None) for t, d in sched])
    eng = b.build()
    eng.sample_all_epochs()
    ks = eng.get_results().kernel_states.unwrap().combine_all().unwrap()[0]
    step = np.asarray(ks.step_size)[0]
    print("engine, RWKernel(initial_step_size=%r), epochs burn-in 3 / posterior 3 / posterior 3:" % s0)
    print("  stored step sizes:", [float(v) for v in step])
    print("  inside each epoch constant:", bool((step[1:4] == step[1]).all() and (step[4:7] == step[4]).all() and (step[7:10] == step[7]).all()))
    print("  burn-in vs posterior #1 identical:", bool(step[1] == step[4]), "  relative change:", abs(float(step[4]) - float(step[1])) / float(step[1]))
