"""Stand-alone repro of the known finding C08-all-excluded-fallback (unrepaired, see known_findings.json).

    PYTHONPATH=/repo JAX_PLATFORMS=cpu /venv/bin/python /verif/notes/C08_all_excluded_repro.py

EngineBuilder.positions_excluded names every kernel position key and positions_included is empty:
builder.build() hands position_keys=[] to Engine, whose `if not position_keys:` treats the empty list as
"not given" and falls back to tracking ALL kernel keys - the excluded keys are stored anyway.
Exit code 1 = the excluded keys are tracked (property clause "excluded position keys are respected" fails).
"""
import logging
import sys

import jax.numpy as jnp
import liesel.goose as gs

logging.getLogger("liesel").setLevel(logging.ERROR)


def log_prob(state):
    return -0.5 * (jnp.sum(state["p1"] ** 2) + jnp.sum(state["p2"] ** 2))


builder = gs.EngineBuilder(seed=1, num_chains=2)
builder.set_model(gs.DictInterface(log_prob))
builder.set_initial_values({"p1": jnp.zeros(()), "p2": jnp.zeros((3,))})
builder.add_kernel(gs.RWKernel(["p1"]))
builder.add_kernel(gs.RWKernel(["p2"]))
builder.set_epochs([
    gs.EpochConfig(gs.EpochType.INITIAL_VALUES, 1, 1, None),
    gs.EpochConfig(gs.EpochType.FAST_ADAPTATION, 4, 1, None),
    gs.EpochConfig(gs.EpochType.POSTERIOR, 4, 1, None),
])
builder.positions_excluded = ["p1", "p2"]
builder.show_progress = False
engine = builder.build()
engine.sample_all_epochs()
keys = sorted(engine.get_results().get_samples().keys())
print("positions_excluded = ['p1', 'p2'], positions_included = []  ->  get_samples().keys() =", keys)
bad = [k for k in keys if k in builder.positions_excluded]
if bad:
    print("FAILS: excluded keys are tracked:", bad)
    sys.exit(1)
print("ok: no excluded key is tracked")
