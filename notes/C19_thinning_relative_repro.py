"""Stand-alone repro (no /verif imports) of two bookkeeping limits of liesel.goose.Summary under thinning.

Run:  PYTHONPATH=/repo JAX_PLATFORMS=cpu /venv/bin/python /verif/notes/C19_thinning_relative_repro.py

They are NOT reported as C19 violations by the check (the counts per kernel / code / chain / phase are exact and
sample_size_per_chain is the number of stored posterior samples); they are what the Coq theorems
C19_relative_exceeds_one_refuted and C19_warmup_size_is_not_stored_refuted say about the faithful model:

 (a) error_df()["relative"] of the posterior phase = (number of posterior TRANSITIONS with the code, unthinned)
     / (number of STORED posterior samples, thinned)  -> exceeds 1 as soon as thinning_posterior > 1.
 (b) sample_info["warmup_size_per_chain"] = sum of the warmup epochs' durations (transitions), which is not the
     number of stored warmup samples when thinning_warmup > 1 (get_samples() holds fewer).
"""
import logging

import numpy as np

import liesel.goose as gs
from liesel.goose.chain import EpochChainManager
from liesel.goose.engine import SamplingResults
from liesel.goose.epoch import EpochConfig, EpochType
from liesel.goose.kernel import DefaultTransitionInfo
from liesel.option import Option

logging.getLogger("liesel").setLevel(logging.ERROR)


class K:
    error_book = {0: "no errors", 1: "boom"}


def results(sched, codes):
    """one chain; sched = [(EpochType, duration, thinning)]; codes = error code per transition"""
    pos, ti = EpochChainManager(apply_thinning=True), EpochChainManager()
    init = EpochConfig(EpochType.INITIAL_VALUES, 1, 1, None)
    pos.advance_epoch(init)
    ti.advance_epoch(init)
    pos.append({"x": np.zeros((1, 1), np.float32)})
    t = 0
    for ty, d, th in sched:
        cfg = EpochConfig(ty, d, th, None)
        pos.advance_epoch(cfg)
        ti.advance_epoch(cfg)
        pos.append({"x": np.arange(t + 1, t + d + 1, dtype=np.float32)[None, :]})
        ti.append({"k": DefaultTransitionInfo(error_code=np.asarray(codes[t:t + d], np.int32)[None, :],
                                              acceptance_prob=np.ones((1, d), np.float32),
                                              position_moved=np.ones((1, d), np.int32))})
        t += d
    return SamplingResults(pos, ti, Option(None), Option(None), Option(None), Option(None), Option({"k": K}), Option({"x": "k"}))


# (a) 4 posterior transitions, thinning 2 -> 2 stored samples; every transition returns code 1
res = results([(EpochType.POSTERIOR, 4, 2)], [1, 1, 1, 1])
s = gs.Summary(res)
df = s.error_df(per_chain=True).reset_index()
row = df[df["phase"] == "posterior"].iloc[0]
print("(a) sample_info:", s.sample_info)
print("    posterior row: count =", int(row["count"]), " relative =", float(row["relative"]))
assert int(row["count"]) == 4 and float(row["relative"]) == 2.0

# (b) 4 warmup transitions with thinning 2 (2 stored), then 2 posterior transitions
res = results([(EpochType.BURNIN, 4, 2), (EpochType.POSTERIOR, 2, 1)], [0, 1, 0, 0, 0, 0])
s = gs.Summary(res)
stored_warmup = res.positions.combine_filtered(lambda c: c.type != EpochType.POSTERIOR and c.type != EpochType.INITIAL_VALUES).unwrap()["x"].shape[1]
print("(b) warmup_size_per_chain =", int(s.sample_info["warmup_size_per_chain"]), " stored warmup samples =", stored_warmup)
assert int(s.sample_info["warmup_size_per_chain"]) == 4 and stored_warmup == 2
print("both observations reproduced")
