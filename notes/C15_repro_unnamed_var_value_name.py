"""Stand-alone repro (C15 finding F10, repaired in /repo by 66a7abc - exits 0 since then): two unnamed variables whose value nodes carry their own
(unique) names cannot be built into one model.

Var.__init__ names the VarValue proxy f"{name}_var_value" = "_var_value" for an unnamed variable.
GraphBuilder._set_missing_names later gives the variable a name (v0, v1), but the Var.name setter renames
the proxy only if the value node's name is "" or the default f"{old}_value"; with a user-named value node
the proxy keeps "_var_value".  Two such variables => `RuntimeError: Duplicate node names: _var_value`,
although the user supplied only unique names.  (liesel/model/nodes.py: Var.__init__, Var.name setter)

Run:  PYTHONPATH=/repo JAX_PLATFORMS=cpu /venv/bin/python /verif/notes/C15_repro_unnamed_var_value_name.py
exit code 1 = the defect is present.
"""
import logging
import sys

import liesel.model as lsl

logging.getLogger("liesel").setLevel(logging.ERROR)
a = lsl.Var(lsl.Calc(lambda: 1.0, _name="own_a"))
b = lsl.Var(lsl.Calc(lambda: 2.0, _name="own_b"))
print("proxy names before the build:", a.var_value_node.name, b.var_value_node.name)
try:
    m = lsl.GraphBuilder().add(a, b).build_model()
except RuntimeError as e:
    print("build rejected:", e)
    sys.exit(1)
print("built:", sorted(m.nodes))
sys.exit(0)
